"""C10 - a name denotes one binding, and reading it sees the value last given to it.

What is within reach of function contracts, and is covered here:

* the name tables of a Namespace against their abstract view (three finite maps: interns, refers,
  aliases): ``intern`` never replaces the Var a symbol already denotes (so references compiled
  earlier stay valid), ``find`` lets an interned Var shadow a referred one, private Vars are never
  referred, ``refer_all`` adds exactly the public interns of the other namespace (loop invariant over
  an arbitrary iteration order), aliases map to the namespace they were given;
* the generator's decision between a direct Python-variable link and ``Var.find(..).value``
  (``_var_sym_to_py_ast``): a Var marked dynamic or redef, and every Var when indirection is switched
  on, is always read through the Var;
* ``munge``: the Python identifier chosen for a name is a function ``spec_munge`` of the name
  (character translation by the real table, then the keyword/builtin suffix); "two different names
  never denote the same binding" then needs ``spec_munge`` to be injective, which is decided on the
  real table by the Sardinas-Patterson test (a finite decision procedure for unique decodability)
  plus the suffix rule - and fails (known finding, three kinds of collision).

The analyzer's symbol resolution (locals shadow Vars; bare / aliased / qualified spellings of a Var;
private Vars) is in the second part, ``contracts/c10_analyzer.py``.  Not covered (stated in the
manifest): resolution of Python names, inlining.
"""
import z3

from pyvc import vals as V
from pyvc import lib
from pyvc.contract import Pack, T, OBJ, ANY, BOOL, STAR
from pyvc.engine import SV, Model, Raise, Exc, Unsupported
from pyvc.monitor import Monitor

ANYKEY = z3.Const("any_key", V.Val)
ANYK = z3.Int("any_address")


def _rt():
    from basilisp.lang import runtime as rt

    return rt


def table(st, ns, fname):
    """(map, domain) view of one name table of a namespace"""
    pm = z3.Select(st.field_array(fname), V.Val.a(ns))
    inner = z3.Select(st.field_array("_inner"), V.Val.a(pm))
    return V.map_of(V.Val.a(inner)), V.dom_of(V.Val.a(inner))


def lookup(tbl, k, default=V.VNone):
    m, d = tbl
    kn = lib.key_norm(k)
    return z3.If(z3.Select(d, kn), z3.Select(m, kn), default)


def same_table(t1, t2):
    (m1, d1), (m2, d2) = t1, t2
    return z3.And(z3.Select(d1, ANYKEY) == z3.Select(d2, ANYKEY), z3.Implies(z3.Select(d2, ANYKEY), z3.Select(m1, ANYKEY) == z3.Select(m2, ANYKEY)))


def assoc(tbl, k, v):
    m, d = tbl
    kn = lib.key_norm(k)
    return z3.Store(m, kn, v), z3.Store(d, kn, True)


def dissoc(tbl, k):
    m, d = tbl
    return m, z3.Store(d, lib.key_norm(k), False)


def truthy(v):
    """Python truthiness of a metadata value as far as needed: None and False are false, True is true"""
    return z3.And(z3.Not(V.is_none(v)), v != V.mk_bool(False))


def setup(eng, st):
    rt = _rt()
    from basilisp.lang.map import PersistentMap

    lib.install(eng)
    lib.install_wrappers(eng)
    pmid = eng.class_id(PersistentMap)
    eng.class_id(rt.Namespace)
    eng.class_id(rt.Var)
    for f in ("_interns", "_refers", "_aliases"):
        eng.field_types[("Namespace", f)] = lambda v: (z3.And(V.is_ref(v), V.cls_of(V.Val.a(v)) == pmid), PersistentMap)
    eng.field_types[("Var", "_meta")] = lambda v: (z3.Or(V.is_none(v), z3.And(V.is_ref(v), V.cls_of(V.Val.a(v)) == pmid)), None)
    # Namespace._lock (an RLock) serialises the mutators; nothing racy is claimed here
    Monitor("_lock", owned=[]).install(eng, st)
    eng.opaque_havoc = "none"


def private(st, var):
    """Var.is_private as a function of the heap: the value under :private in the Var's metadata map"""
    from basilisp.lang import runtime as rt

    meta = z3.Select(st.field_array("_meta"), V.Val.a(var))
    inner = z3.Select(st.field_array("_inner"), V.Val.a(meta))
    return z3.And(z3.Not(V.is_none(meta)), PRIVATE_LOOKUP(V.Val.a(inner)))


# truthiness of meta[:private] of the wrapped map at an address (defined in `build` once the keyword is lifted)
PRIVATE_LOOKUP = None


def build(active_known=frozenset()):
    global PRIVATE_LOOKUP
    rt = _rt()
    NS, Var = rt.Namespace, rt.Var
    pack = Pack("C10", "A name denotes one binding, and reading it sees the value last given to it")
    pack.common_setup.append(setup)
    pack.trust("PersistentMap.assoc/dissoc/val_at behave as proved in the C04 pack (their real bodies are inlined here as well); symbols used as keys are identified up to ==")
    pack.assume("the analyzer's symbol resolution, local shadowing and inlining are not covered by contracts")
    mod = "basilisp.lang.runtime:Namespace."

    def new(name, label=None):
        c = pack.contract(mod + name)
        if label:
            c.label = label
        c.param("self", OBJ(NS))

        def pre_existing(a):
            # not a restriction: whatever the pre-state refers to was not allocated by the call
            ts = [z3.Select(a.pre.st.field_array(f), V.Val.a(a.self)) for f in ("_interns", "_refers", "_aliases")]
            ins = [z3.Select(a.pre.st.field_array("_inner"), V.Val.a(t)) for t in ts]
            from basilisp.lang.map import PersistentMap

            pmid, imid = a.eng.class_id(PersistentMap), a.eng.class_id(a.eng.libcls["IMap"])
            return z3.And(*[z3.And(V.is_ref(t), V.Val.a(t) <= 0) for t in ts + ins], *[V.cls_of(V.Val.a(t)) == pmid for t in ts], *[V.cls_of(V.Val.a(t)) == imid for t in ins])

        c.requires("the three name tables and their wrapped maps exist before the call", pre_existing)
        return c

    def others_kept(a, *changed):
        """the name tables not listed are exactly as before"""
        return z3.And(*[same_table(table(a.post.st, a.self, f), table(a.pre.st, a.self, f)) for f in ("_interns", "_refers", "_aliases") if f not in changed])

    # ------------------------------------------------------------------ intern / find / unmap
    c = new("intern")
    c.param("force", BOOL)
    c.requires("the Var to intern is not nil", lambda a: z3.Not(V.is_none(a.var)))
    c.raises()

    def intern_post(a):
        I = table(a.pre.st, a.self, "_interns")
        old = lookup(I, a.sym)
        keep = z3.And(z3.Not(V.is_none(old)), z3.Not(V.Val.b(a.force)))
        want = (z3.If(keep, I[0], assoc(I, a.sym, a.var)[0]), z3.If(keep, I[1], assoc(I, a.sym, a.var)[1]))
        return z3.And(same_table(table(a.post.st, a.self, "_interns"), want), a.result == z3.If(keep, old, a.var), others_kept(a, "_interns"))

    c.ensures("a symbol that already denotes a Var keeps denoting that very Var (unless forced); otherwise it now denotes the given Var; "
              "the result is the Var the symbol denotes afterwards; no other entry, refer or alias changes", intern_post)

    c = new("find")
    c.raises()
    c.ensures("an interned Var shadows a referred Var of the same name; an unknown name gives nil",
              lambda a: a.result == z3.If(z3.Not(V.is_none(lookup(table(a.pre.st, a.self, "_interns"), a.sym))), lookup(table(a.pre.st, a.self, "_interns"), a.sym),
                                          lookup(table(a.pre.st, a.self, "_refers"), a.sym)))
    c.ensures("looking a name up changes nothing", lambda a: others_kept(a))

    c = new("unmap")
    c.raises()
    c.ensures("unmap removes exactly that name from the interns", lambda a: z3.And(same_table(table(a.post.st, a.self, "_interns"), dissoc(table(a.pre.st, a.self, "_interns"), a.sym)), others_kept(a, "_interns")))

    # ------------------------------------------------------------------ aliases
    for n in (1, 2):
        c = new("add_alias", f"{n} alias(es)")
        c.param("aliases", STAR(n))
        c.raises()

        def post(a, n=n):
            t = table(a.pre.st, a.self, "_aliases")
            for i in range(n):
                t = assoc(t, getattr(a, f"aliases{i}"), a.namespace)
            return z3.And(same_table(table(a.post.st, a.self, "_aliases"), t), others_kept(a, "_aliases"))

        c.ensures("each alias now denotes the given namespace; nothing else changes", post)

    c = new("get_alias")
    c.raises()
    c.ensures("an alias denotes the namespace it was last given, nil when unknown", lambda a: z3.And(a.result == lookup(table(a.pre.st, a.self, "_aliases"), a.alias), others_kept(a)))

    c = new("remove_alias")
    c.raises()
    c.ensures("remove_alias removes exactly that alias", lambda a: z3.And(same_table(table(a.post.st, a.self, "_aliases"), dissoc(table(a.pre.st, a.self, "_aliases"), a.alias)), others_kept(a, "_aliases")))

    # ------------------------------------------------------------------ refers
    kw_private = rt._PRIVATE_META_KEY
    priv_fn = z3.Function("meta_private", z3.IntSort(), z3.BoolSort())
    PRIVATE_LOOKUP = priv_fn

    def refer_setup(eng, st):
        # Var.is_private reads meta[:private]; its truthiness is the uninterpreted meta_private(inner map address)
        def is_private(e, s, args, k):
            var = args[0]
            meta = e.load_field(s, var.t, "_meta", Var)
            inner = z3.Select(s.field_array("_inner"), V.Val.a(meta.t))
            yield s, SV(V.mk_bool(z3.And(z3.Not(V.is_none(meta.t)), priv_fn(V.Val.a(inner)))))

        m = Model("Var.is_private (truthiness of meta[:private])", is_private)
        m.is_property = True
        eng.method_models[(Var, "is_private")] = m

    c = new("add_refer")
    c.param("var", OBJ(Var))
    c.setup(refer_setup)
    c.raises()
    c.ensures("a public Var becomes visible under the name; a private Var is never referred; nothing else changes",
              lambda a: z3.And(same_table(table(a.post.st, a.self, "_refers"),
                                          (z3.If(private(a.pre.st, a.var), table(a.pre.st, a.self, "_refers")[0], assoc(table(a.pre.st, a.self, "_refers"), a.sym, a.var)[0]),
                                           z3.If(private(a.pre.st, a.var), table(a.pre.st, a.self, "_refers")[1], assoc(table(a.pre.st, a.self, "_refers"), a.sym, a.var)[1]))),
                               others_kept(a, "_refers")))

    c = new("get_refer")
    c.raises()
    c.ensures("a referred name denotes the Var it was given, nil when unknown", lambda a: z3.And(a.result == lookup(table(a.pre.st, a.self, "_refers"), a.sym), others_kept(a)))

    # refer_all: the loop runs over the other namespace's interns in an arbitrary (hash) order
    c = new("refer_all")
    c.param("other_ns", OBJ(NS))
    x = z3.Const("x", V.Val)

    def isvar(eng, v):
        return z3.And(V.is_ref(v), V.cls_of(V.Val.a(v)) == eng.class_id(Var))

    def refer_all_setup(eng, st):
        refer_setup(eng, st)
        eng.value_type = OBJ(Var)  # values of the iterated table (an obligation at each use)

    c.setup(refer_all_setup)
    c.requires("the other namespace's interns are Vars, under keys that are not booleans/ratios, and its table exists before the call",
               lambda a: z3.And(z3.ForAll([x], z3.Implies(z3.Select(table(a.pre.st, a.other_ns, "_interns")[1], x),
                                                          (lambda v: z3.And(isvar(a.eng, v), z3.Not(z3.Or(V.is_bool(x), V.is_frac(x))), V.Val.a(v) <= 0,
                                                                            z3.Implies(V.is_ref(z3.Select(a.pre.st.field_array("_meta"), V.Val.a(v))),
                                                                                       V.Val.a(z3.Select(a.pre.st.field_array("_meta"), V.Val.a(v))) <= 0)))(z3.Select(table(a.pre.st, a.other_ns, "_interns")[0], x))),
                                          patterns=[z3.Select(table(a.pre.st, a.other_ns, "_interns")[1], x)]),
                                *[z3.And(V.is_ref(t), V.Val.a(t) <= 0) for t in (z3.Select(a.pre.st.field_array("_interns"), V.Val.a(a.other_ns)),
                                                                                z3.Select(a.pre.st.field_array("_inner"), V.Val.a(z3.Select(a.pre.st.field_array("_interns"), V.Val.a(a.other_ns)))))]))
    c.raises()

    def merged(pre, self_, other, upto=None, pos=None):
        """the refers after adding the public interns of `other` (those enumerated before position `upto`)"""
        Rm, Rd = table(pre, self_, "_refers")
        Om, Od = table(pre, other, "_interns")
        added = z3.And(z3.Select(Od, ANYKEY), z3.Not(private(pre, z3.Select(Om, ANYKEY))))
        if upto is not None:
            added = z3.And(added, pos(ANYKEY) < upto)
        return added, z3.Or(z3.Select(Rd, ANYKEY), added), z3.If(added, z3.Select(Om, ANYKEY), z3.Select(Rm, ANYKEY))

    def refer_all_post(a):
        added, dom, val = merged(a.pre.st, a.self, a.other_ns)
        m1, d1 = table(a.post.st, a.self, "_refers")
        return z3.And(z3.Select(d1, ANYKEY) == dom, z3.Implies(dom, z3.Select(m1, ANYKEY) == val), others_kept(a, "_refers"))

    c.ensures("afterwards a name is referred exactly if it was before or the other namespace interns a public Var under it, which then wins; "
              "private Vars are never referred; nothing else changes", refer_all_post)

    def refer_all_inv(ctx):
        pre = ctx.entry.st
        self_, other = ctx["self"], ctx["other_ns"]
        fr = ctx["final_refers"]
        inner = z3.Select(ctx.st.field_array("_inner"), V.Val.a(fr))
        m, d = V.map_of(V.Val.a(inner)), V.dom_of(V.Val.a(inner))
        added, dom, val = merged(pre, self_, other, upto=ctx.i, pos=ctx.it.keys_seq.inv)
        from basilisp.lang.map import PersistentMap

        return [
            ("final_refers is a persistent map", z3.And(V.is_ref(fr), V.cls_of(V.Val.a(fr)) == ctx.eng.class_id(PersistentMap), V.is_ref(inner), V.cls_of(V.Val.a(inner)) == ctx.eng.class_id(ctx.eng.libcls["IMap"]))),
            ("final_refers holds the old refers plus the public interns visited so far", z3.And(z3.Select(d, ANYKEY) == dom, z3.Implies(dom, z3.Select(m, ANYKEY) == val))),
            ("the name tables are untouched inside the loop", z3.And(*[ctx.field(self_, f) == ctx.entry.field(self_, f) for f in ("_interns", "_refers", "_aliases")],
                                                                   ctx.field(other, "_interns") == ctx.entry.field(other, "_interns"))),
        ]

    c.loop(0, invariant=refer_all_inv, frame=[], lists=False, allocates=True)

    # ------------------------------------------------------------------ Var.intern: what `def` does
    # call-site contracts of the Var mutators used by intern (assumed here: their bodies run validators and watches)
    for mname, fields in (("bind_root", ["_root", "_is_bound"]), ("reset_meta", ["_meta"]), ("set_dynamic", ["_dynamic", "_tl"])):
        m = pack.contract(f"basilisp.lang.runtime:Var.{mname}" if mname != "reset_meta" else "basilisp.lang.reference:ReferenceBase.reset_meta", modular=True)
        m.spec_only = True
        m.param("self", OBJ(Var))
        m.modifies_ = fields
        if mname == "bind_root":
            m.may_raise = [(Exception, None)]
            m.ensures("the root is the given value", lambda a: z3.Select(a.post.st.field_array("_root"), V.Val.a(a.self)) == a.val)
    pack.trust("Var.bind_root sets the root to the given value (or raises when a validator rejects it); reset_meta / set_dynamic only touch the Var's metadata and dynamic flag")

    c = pack.contract("basilisp.lang.runtime:Var.intern")
    c.param("ns", OBJ(NS))
    c.param_value("cls", lambda eng, st: Var)

    def ns_pre(a):
        ts = [z3.Select(a.pre.st.field_array(f), V.Val.a(a.ns)) for f in ("_interns", "_refers", "_aliases")]
        ins = [z3.Select(a.pre.st.field_array("_inner"), V.Val.a(t)) for t in ts]
        from basilisp.lang.map import PersistentMap

        pmid, imid = a.eng.class_id(PersistentMap), a.eng.class_id(a.eng.libcls["IMap"])
        I = table(a.pre.st, a.ns, "_interns")
        old = lookup(I, a.name)
        return z3.And(*[z3.And(V.is_ref(t), V.Val.a(t) <= 0) for t in ts + ins], *[V.cls_of(V.Val.a(t)) == pmid for t in ts], *[V.cls_of(V.Val.a(t)) == imid for t in ins],
                      z3.Implies(z3.Not(V.is_none(old)), z3.And(isvar(a.eng, old), V.Val.a(old) <= 0)))

    c.requires("the namespace's tables exist before the call and a name that is already interned denotes a Var", ns_pre)
    c.requires("dynamic is a boolean", lambda a: V.is_bool(a.dynamic))

    def meta_ok(a):
        from basilisp.lang.map import PersistentMap

        return z3.Or(V.is_none(a.meta), z3.And(V.is_ref(a.meta), V.cls_of(V.Val.a(a.meta)) == a.eng.class_id(PersistentMap)))

    c.requires("the metadata is nil or a persistent map", meta_ok)

    def var_intern_post(a):
        I = table(a.pre.st, a.ns, "_interns")
        old = lookup(I, a.name)
        had = z3.Not(V.is_none(old))
        r = a.result
        post = a.post.st
        fresh = z3.And(isvar(a.eng, r), V.Val.a(r) > 0, z3.Select(post.field_array("_ns"), V.Val.a(r)) == a.ns, z3.Select(post.field_array("_name"), V.Val.a(r)) == a.name)
        want = (z3.If(had, I[0], assoc(I, a.name, r)[0]), z3.If(had, I[1], assoc(I, a.name, r)[1]))
        return z3.And(z3.If(had, r == old, fresh), same_table(table(post, a.ns, "_interns"), want),
                      *[same_table(table(post, a.ns, f), table(a.pre.st, a.ns, f)) for f in ("_refers", "_aliases")],
                      z3.Implies(a.val != a.eng.lift(Var._Var__UNBOUND_SENTINEL, a.pre.st), z3.Select(post.field_array("_root"), V.Val.a(r)) == a.val))

    c.ensures("def of a name that already denotes a Var returns that very Var (compiled references stay valid) and leaves the table alone; a new name gets a new Var "
              "of this namespace and name; either way the Var's root is the given value and the refers and aliases are untouched", var_intern_post)

    # ------------------------------------------------------------------ munge: the Python identifier of a name
    import builtins
    import keyword

    from basilisp.lang import util
    from pyvc import ops
    from pyvc.contract import STR

    TR = z3.Function("munge_translate", z3.StringSort(), z3.StringSort())  # str.translate with the real table (a character-wise homomorphism)

    def is_kw(s):
        return z3.Or(*[s == z3.StringVal(k) for k in sorted(keyword.kwlist)])

    def is_builtin(s):
        return z3.Or(*[s == z3.StringVal(k) for k in sorted(builtins.__dict__) if isinstance(k, str)])

    def spec_munge(s, allow_builtins):
        t = TR(s)
        return z3.If(t == z3.StringVal(".."), z3.StringVal("__DOT_DOT__"),
                     z3.If(z3.Or(is_kw(t), z3.And(z3.Not(allow_builtins), is_builtin(t))), z3.Concat(t, z3.StringVal("_")), t))

    def munge_setup(eng, st):
        def translate(e, s, args, k):
            self, tbl = args
            if tbl is not util._MUNGE_TRANSLATE_TABLE:
                raise Unsupported("str.translate with a table other than the munge table")
            yield s, SV(V.mk_str(TR(V.Val.s(self.t))))

        eng.method_models[(str, "translate")] = Model("str.translate(munge table)", translate)

        def iskeyword(e, s, args, k):
            for s1, r in ops.contains(e, frozenset(keyword.kwlist), args[0], s):
                yield s1, (r if isinstance(r, (Raise, bool)) else SV(V.mk_bool(r)))

        eng.models[id(keyword.iskeyword)] = Model("keyword.iskeyword", iskeyword)
        eng._keep.append(keyword.iskeyword)

    c = pack.contract("basilisp.lang.util:munge")
    c.param("s", STR).param("allow_builtins", BOOL)
    c.setup(munge_setup)
    c.raises()
    c.ensures("the identifier is the character translation of the name, `__DOT_DOT__` for `..`, with `_` appended to Python keywords and (unless allowed) builtins",
              lambda a: z3.And(V.is_str(a.result), V.Val.s(a.result) == spec_munge(V.Val.s(a.s), V.Val.b(a.allow_builtins))))
    pack.extra.append(munge_injectivity(active_known))
    add_generator_contracts(pack)
    # a refuted or undecided obligation is followed by a concrete scenario on the real classes; it only decides
    # whether the VIOLATION line carries a reproduced input (and turns a solver `unknown` with a witness into a refutation)
    for c in pack.contracts:
        if c.replay_ is None and not getattr(c, "spec_only", False):
            c.replay(lambda m, ctx, ob: NS_REPLAY)
            c.replay_without_model = True
    from contracts import c10_analyzer

    c10_analyzer.add_analyzer(pack, private)
    # resolve_alias (what `resolve`, `ns-resolve` and syntax-quote use to name the Var a symbol denotes) is proved in the C09
    # pack; the same contracts are discharged here as well, since "bare, aliased and qualified spellings denote the same
    # Var" is this property's statement
    from contracts import c09_syntax_quote

    n0 = len(pack.contracts)
    c09_syntax_quote.add_resolution(pack)
    pack.contracts[n0:] = [c_ for c_ in pack.contracts[n0:] if c_.key.endswith(":resolve_alias")]

    # Var.set_dynamic: Var.intern calls it on every re-definition; that it leaves the thread-local bindings of a Var that
    # stays dynamic alone is what makes "reading sees the thread binding" survive a re-`def` (contract shared with C11)
    from contracts import c11_bindings

    n0 = len(pack.contracts)
    c11_bindings.add_set_dynamic(pack)
    for c_ in pack.contracts[n0:]:
        c_.setup_.insert(0, c11_bindings.setup) if c11_bindings.setup not in c_.setup_ else None
    return pack


GEN_REPLAY = r'''
import subprocess, sys, tempfile, os
d = tempfile.mkdtemp()
os.makedirs(os.path.join(d, "c10r"))
open(os.path.join(d, "c10r", "__init__.py"), "w").close()
open(os.path.join(d, "c10r", "other.lpy"), "w").write("(ns c10r.other)\n(def x 7)\n")
src = """(ns c10.replay.gen (:require c10r.other))
(def x 1)
(defn fo [c10r-other] c10r.other/x)
(defn fo2 [c10r_other] (let [y c10r.other/x] y))
(defn f [x] c10.replay.gen/x)
(defn g [& x] c10.replay.gen/x)
(defn h [x] (fn [] c10.replay.gen/x))
(defn k [x] (let [x 3] [x c10.replay.gen/x]))
(def ^:redef r 1)
(defn rd [] r)
(alter-var-root #'r inc)
(def ^:dynamic *d* 1)
(defn dd [] *d*)
(println "RESULT" (f 2) (g 2) ((h 2)) (k 2) (rd) (binding [*d* 5] (dd)) (try (fo 5) (catch python/Exception e (python/type e))) (try (fo2 6) (catch python/Exception e (python/type e))))
"""
with tempfile.NamedTemporaryFile("w", suffix=".lpy", delete=False) as fh:
    fh.write(src)
try:
    env = dict(os.environ, PYTHONPATH=d + os.pathsep + os.environ.get("PYTHONPATH", ""))
    out = subprocess.run([sys.executable, "-m", "basilisp.cli", "run", fh.name], capture_output=True, text=True, timeout=300, env=env)
finally:
    os.unlink(fh.name)
line = [l for l in out.stdout.splitlines() if l.startswith("RESULT")]
got = line[0] if line else "no output: " + out.stderr[-300:]
want = "RESULT 1 1 1 [3 1] 2 5 7 7"
print("qualified references to a Var shadowed by parameters, a redef Var after alter-var-root, a dynamic Var under binding:")
print("  got     ", got)
print("  expected", want)
print("REPRODUCED" if got != want else "not reproduced")
'''


FLAG_REPLAY = r'''
from basilisp.lang import runtime as rt, symbol as sym, keyword as kw, map as lmap
from basilisp.lang.compiler import generator as gen
ns = rt.Namespace(sym.symbol("c10-replay-flags"))
bad = []
for fname, key in (("_is_redefable", "redef"), ("_is_dynamic", "dynamic")):
    f = getattr(gen, fname)
    v = rt.Var(ns, sym.symbol("v-" + key))
    first = bool(f(v))
    v.reset_meta(lmap.map({kw.keyword(key): True}))     # what a re-def with ^:redef / ^:dynamic does
    second = bool(f(v))
    v.reset_meta(None)
    third = bool(f(v))
    if (first, second, third) != (False, True, False):
        bad.append("%s(var): plain -> %s, after the Var got ^:%s -> %s, after the marking was removed -> %s (expected False, True, False)" % (fname, first, key, second, third))
for line in bad:
    print(line)
print("REPRODUCED" if bad else "not reproduced")
'''


NS_REPLAY = r'''
from basilisp.lang import runtime as rt, symbol as sym, keyword as kw, map as lmap
bad = []
def chk(desc, got, want):
    if got is not want and got != want:
        bad.append("%s => %r, expected %r" % (desc, got, want))
ns = rt.Namespace(sym.symbol("c10-replay-a"))
other = rt.Namespace(sym.symbol("c10-replay-b"))
x, y, p = sym.symbol("x"), sym.symbol("y"), sym.symbol("p")
v1, v2 = rt.Var(ns, x), rt.Var(ns, x)
chk("intern of a new name returns the given Var", ns.intern(x, v1), v1)
chk("intern of a known name returns the Var it already denotes", ns.intern(x, v2), v1)
chk("find after two interns", ns.find(x), v1)
chk("forced intern replaces", ns.intern(x, v2, force=True), v2)
ns.intern(x, v1, force=True)
ov = rt.Var(other, x); other.intern(x, ov)
oy = rt.Var(other, y); other.intern(y, oy)
pv = rt.Var(other, p, meta=lmap.map({kw.keyword("private"): True})); other.intern(p, pv)
ns.add_refer(p, pv)
chk("a private Var is not referred by add_refer", ns.get_refer(p), None)
third = rt.Namespace(sym.symbol("c10-replay-c"))
ty = rt.Var(third, y); third.intern(y, ty)
ns.add_refer(y, ty)   # the name y is already referred, to a Var of a third namespace (or to a Var the other namespace has since replaced)
ns.refer_all(other)
chk("refer_all refers a public Var, also under a name that was referred to another Var before", ns.get_refer(y), oy)
chk("refer_all does not refer a private Var", ns.get_refer(p), None)
chk("an interned Var shadows a referred one", ns.find(x), v1)
chk("a referred Var is found when nothing is interned under the name", ns.find(y), oy)
chk("an unknown name", ns.find(sym.symbol("nope")), None)
ns.add_alias(other, sym.symbol("o"), sym.symbol("o2"))
chk("alias", ns.get_alias(sym.symbol("o")), other); chk("second alias", ns.get_alias(sym.symbol("o2")), other)
ns.remove_alias(sym.symbol("o")); chk("removed alias", ns.get_alias(sym.symbol("o")), None); chk("other alias kept", ns.get_alias(sym.symbol("o2")), other)
ns.unmap(x); chk("unmapped name falls back to the refer", ns.find(x), ov)
d1 = rt.Var.intern(ns, sym.symbol("d"), 1); d2 = rt.Var.intern(ns, sym.symbol("d"), 2)
chk("def twice gives the same Var", d2, d1); chk("def twice: last value", d1.value, 2)
from basilisp.lang import util
chk("munge keyword", util.munge("class"), "class_"); chk("munge builtin", util.munge("print"), "print_"); chk("munge builtin allowed", util.munge("print", allow_builtins=True), "print")
chk("munge ..", util.munge(".."), "__DOT_DOT__"); chk("munge chars", util.munge("a+b?"), "a__PLUS__b__Q__")
for line in bad[:12]:
    print(line)
print("REPRODUCED" if bad else "not reproduced")
'''


# ----------------------------------------------------------------------------- the generator's choice: direct link or Var indirection
def add_generator_contracts(pack):
    import ast

    from basilisp.lang import runtime as rt
    from basilisp.lang import symbol as sym
    from basilisp.lang.compiler import generator as gen
    from basilisp.lang.compiler import nodes
    from basilisp.lang.map import PersistentMap

    GPA, VarRef, GCtx = gen.GeneratedPyAST, nodes.VarRef, gen.GeneratorContext
    IS_DYN = z3.Function("meta_dynamic", V.Val, z3.BoolSort())   # truthiness of (:dynamic (meta var))
    IS_REDEF = z3.Function("meta_redef", V.Val, z3.BoolSort())   # truthiness of (:redef (meta var))
    NIM = z3.Function("name_in_module", V.Val, V.Val, V.Val)     # __name_in_module(name, module): a str or None
    NS_PYSYM = z3.Function("ns_as_python_sym", V.Val, V.Val)
    LOAD_ATTR = z3.Function("load_attr_node", V.Val, V.Val, V.Val)
    CUR_NS = z3.Const("current.ns", V.Val)
    # "a function parameter of this or an enclosing frame is compiled to this Python name" (SymbolTable.is_py_param)
    PARAM_BOUND = z3.Function("python_param_in_scope", V.Val, V.Val, z3.BoolSort())

    def fld(st, obj, name):
        return z3.Select(st.field_array(name), V.Val.a(obj))

    def lst(st, ref):
        return z3.Select(st.lists, V.Val.a(ref))

    def exact(eng, v, cls):
        return z3.And(V.is_ref(v), V.cls_of(V.Val.a(v)) == eng.class_id(cls))

    def gsetup(eng, st):
        for c in (ast.Call, ast.Attribute, ast.Name, ast.Constant, ast.keyword, ast.Load, ast.Store, GPA, VarRef, GCtx, rt.Var, rt.Namespace, sym.Symbol, PersistentMap, list):
            eng.class_id(c)
        lid, pmid = eng.class_id(list), eng.class_id(PersistentMap)
        eng.field_types[("GeneratorContext", "_var_indirection_override")] = lambda v: (z3.And(V.is_ref(v), V.cls_of(V.Val.a(v)) == lid), list)
        eng.field_types[("GeneratorContext", "_opts")] = lambda v: (z3.And(V.is_ref(v), V.cls_of(V.Val.a(v)) == pmid), PersistentMap)
        eng.field_types[("GeneratorContext", "_st")] = lambda v: (z3.And(V.is_ref(v), V.cls_of(V.Val.a(v)) == lid), list)
        eng.class_id(gen.SymbolTable)
        eng.method_models[(gen.SymbolTable, "is_py_param")] = Model(
            "SymbolTable.is_py_param (a parameter in scope has this Python name)", lambda e, s, a, k: iter([(s, SV(V.mk_bool(PARAM_BOUND(e.lift(a[0], s), e.lift(a[1], s)))))]))
        eng.field_types[("VarRef", "var")] = lambda v: (z3.And(V.is_ref(v), V.cls_of(V.Val.a(v)) == eng.class_id(rt.Var)), rt.Var)
        eng.field_types[("VarRef", "return_var")] = lambda v: V.is_bool(v)
        eng.field_types[("VarRef", "is_allow_var_indirection")] = lambda v: V.is_bool(v)
        eng.field_types[("Var", "_ns")] = lambda v: (z3.And(V.is_ref(v), V.cls_of(V.Val.a(v)) == eng.class_id(rt.Namespace)), rt.Namespace)
        eng.field_types[("Var", "_name")] = lambda v: (z3.And(V.is_ref(v), V.cls_of(V.Val.a(v)) == eng.class_id(sym.Symbol)), sym.Symbol)
        eng.field_types[("Namespace", "_name")] = lambda v: (z3.And(V.is_ref(v), V.cls_of(V.Val.a(v)) == eng.class_id(sym.Symbol)), sym.Symbol)
        eng.field_types[("Symbol", "_name")] = lambda v: V.is_str(v)
        st.assume(V.is_ref(CUR_NS), V.Val.a(CUR_NS) <= 0, V.cls_of(V.Val.a(CUR_NS)) == eng.class_id(rt.Namespace))
        eng.models[id(rt.get_current_ns)] = Model("runtime.get_current_ns", lambda e, s, a, k: iter([(s, SV(CUR_NS, hint=rt.Namespace))]))
        eng.models[id(gen._is_dynamic)] = Model("_is_dynamic (truthiness of the Var's :dynamic metadata)", lambda e, s, a, k: iter([(s, SV(V.mk_bool(IS_DYN(e.lift(a[0], s)))))]))
        eng.models[id(gen._is_redefable)] = Model("_is_redefable (truthiness of the Var's :redef metadata)", lambda e, s, a, k: iter([(s, SV(V.mk_bool(IS_REDEF(e.lift(a[0], s)))))]))

        def nim(e, s, a, k):
            r = NIM(e.lift(a[0], s), e.lift(a[1], s))
            s.assume(z3.Or(V.is_none(r), V.is_str(r)))
            yield s, SV(r)

        eng.models[id(gen.__dict__["__name_in_module"])] = Model("__name_in_module", nim)
        eng.models[id(gen._var_ns_as_python_sym)] = Model("_var_ns_as_python_sym", lambda e, s, a, k: iter([(s, SV(V.mk_str(V.Val.s(NS_PYSYM(e.lift(a[0], s))))))]))

        def load_attr(e, s, a, k):
            # _load_attr("<module>.<name>"): the attribute <name> of the Python name <module>.  The dotted string is built
            # by an f-string from a name bound in the module (an identifier, no dots) and the Var's safe name; the model
            # reads the module part off that term and gives the node its shape: Attribute(value=Name(id=<module>)).
            path = e.lift(a[0], s)
            r = LOAD_ATTR(path, e.lift(k.get("ctx", a[1] if len(a) > 1 else None), s))
            s.assume(V.is_ref(r), V.Val.a(r) <= 0, V.cls_of(V.Val.a(r)) == e.class_id(ast.Attribute))
            t = z3.simplify(V.Val.s(path))
            guard = []

            def flat(u):
                while z3.is_app(u) and u.decl().kind() == z3.Z3_OP_ITE:  # a formatted value that is a string on this path
                    guard.append(u.arg(0))
                    u = u.arg(1)
                if z3.is_app(u) and u.decl().kind() == z3.Z3_OP_SEQ_CONCAT:
                    return [w for ch in u.children() for w in flat(ch)]
                return [u]

            parts = flat(t)
            if len(parts) >= 3 and z3.is_string_value(parts[1]) and parts[1].as_string() == ".":
                root = e.alloc(s, ast.Name)
                e.store_field(s, root.t, "id", V.mk_str(parts[0]), None)
                s.assume(z3.Implies(z3.And(*guard) if guard else z3.BoolVal(True), z3.Select(s.field_array("value"), V.Val.a(r)) == root.t))
            yield s, SV(r, hint=ast.Attribute)

        eng.models[id(gen._load_attr)] = Model("_load_attr", load_attr)
        import logging

        eng.ignored_calls.add(id(logging.Logger.warning))
        eng.models[id(gen.logger.warning)] = Model("logger.warning", lambda e, s, a, k: iter([(s, None)]))
        eng._keep.extend([gen.logger.warning])

    FIND, NEWSYM = gen._FIND_VAR_FN_NAME, gen._NEW_SYM_FN_NAME

    def is_find_call(a, st, n, vname, nsname):
        """n is the AST of  Var.find_safe(sym.symbol(<vname>, ns=<nsname>))"""
        e = a.eng
        args = lst(st, fld(st, n, "args"))
        inner = args[0]
        iargs, ikws = lst(st, fld(st, inner, "args")), lst(st, fld(st, inner, "keywords"))
        kw0 = ikws[0]
        return z3.And(exact(e, n, ast.Call), fld(st, n, "func") == e.lift(FIND, st), z3.Length(args) == 1, z3.Length(lst(st, fld(st, n, "keywords"))) == 0,
                      exact(e, inner, ast.Call), fld(st, inner, "func") == e.lift(NEWSYM, st), z3.Length(iargs) == 1, exact(e, iargs[0], ast.Constant), fld(st, iargs[0], "value") == vname,
                      z3.Length(ikws) == 1, exact(e, kw0, ast.keyword), fld(st, kw0, "arg") == V.mk_str("ns"), exact(e, fld(st, kw0, "value"), ast.Constant), fld(st, fld(st, kw0, "value"), "value") == nsname)

    # the two predicates themselves: a function of the Var's *current* metadata (a re-def may add :redef / :dynamic)
    def flag_setup(eng, st):
        lib.install(eng)
        lib.install_wrappers(eng)
        from pyvc.monitor import Monitor

        pmid = eng.class_id(PersistentMap)
        eng.class_id(rt.Var)
        eng.field_types[("Var", "_meta")] = lambda v: (z3.Or(V.is_none(v), z3.And(V.is_ref(v), V.cls_of(V.Val.a(v)) == pmid)), None)
        Monitor("_lock", owned=[]).install(eng, st)

    for fname, key in (("_is_dynamic", gen.SYM_DYNAMIC_META_KEY), ("_is_redefable", gen.SYM_REDEF_META_KEY)):
        c = pack.contract(f"basilisp.lang.compiler.generator:{fname}")
        c.entry_live = True
        c.param("v", OBJ(rt.Var))
        c.setup(flag_setup)
        c.raises()

        def flag_post(a, key=key):
            st = a.pre.st
            meta = fld(st, a.v, "_meta")
            inner = fld(st, meta, "_inner")
            kn = lib.key_norm(a.eng.lift(key, st))
            m, d = V.map_of(V.Val.a(inner)), V.dom_of(V.Val.a(inner))
            return a.result == z3.If(z3.And(z3.Not(V.is_none(meta)), z3.Select(d, kn), z3.Not(V.is_none(z3.Select(m, kn)))), z3.Select(m, kn), V.mk_bool(False))

        c.ensures("the answer is read from the Var's current metadata (the value under the key; false when there is no metadata, no such key, or nil under it) - "
                  "not from an earlier state of the Var", flag_post)
        c.replay(lambda m, ctx, ob: FLAG_REPLAY)
        c.replay_without_model = True

    c = pack.contract("basilisp.lang.compiler.generator:_var_sym_to_py_ast")
    c.param("ctx", OBJ(GCtx)).param("node", OBJ(VarRef)).param("is_assigning", BOOL)
    c.setup(gsetup)
    from pyvc import ops as _ops

    c.requires("the node is a Var reference (node.op == NodeOp.VAR)", lambda a: _ops.eq_term(None, fld(a.pre.st, a.node, "op"), a.eng.lift(nodes.NodeOp.VAR, a.pre.st)))
    c.requires("the generator has a current symbol table",
               lambda a: (lambda L: z3.And(z3.Length(L) > 0, exact(a.eng, L[z3.Length(L) - 1], gen.SymbolTable)))(lst(a.pre.st, fld(a.pre.st, a.ctx, "_st"))))
    c.requires("the override stack holds booleans", lambda a: (lambda L: z3.Implies(z3.Length(L) > 0, V.is_bool(L[z3.Length(L) - 1])))(lst(a.pre.st, fld(a.pre.st, a.ctx, "_var_indirection_override"))))
    c.raises()

    def names(a):
        st = a.pre.st
        var = fld(st, a.node, "var")
        ns = fld(st, var, "_ns")
        return var, ns, fld(st, fld(st, var, "_name"), "_name"), fld(st, fld(st, ns, "_name"), "_name")

    def indirect(a):
        st = a.pre.st
        var = names(a)[0]
        L = lst(st, fld(st, a.ctx, "_var_indirection_override"))
        override = z3.And(z3.Length(L) > 0, V.Val.b(L[z3.Length(L) - 1]))
        opts = fld(st, a.ctx, "_opts")
        inner = fld(st, opts, "_inner")
        key = lib.key_norm(a.eng.lift(gen.USE_VAR_INDIRECTION, st))
        use = z3.And(z3.Select(V.dom_of(V.Val.a(inner)), key), a.eng.truthy_term(SV(z3.Select(V.map_of(V.Val.a(inner)), key)), st))
        return z3.Or(override, use, IS_DYN(var), IS_REDEF(var))

    def symtab(a):
        L = lst(a.pre.st, fld(a.pre.st, a.ctx, "_st"))
        return L[z3.Length(L) - 1]

    def ctx_cls(a, n):
        return z3.If(V.Val.b(a.is_assigning), exact(a.eng, fld(a.post.st, n, "ctx"), ast.Store), exact(a.eng, fld(a.post.st, n, "ctx"), ast.Load))

    def through_var(a, n):
        """n is the AST of  Var.find_safe(sym.symbol(name, ns=ns)).value"""
        _, _, vname, nsname = names(a)
        post = a.post.st
        return z3.And(exact(a.eng, n, ast.Attribute), fld(post, n, "attr") == V.mk_str("value"), ctx_cls(a, n), is_find_call(a, post, fld(post, n, "value"), vname, nsname))

    def var_sym_post(a):
        post = a.post.st
        r = a.result
        n = fld(post, r, "node")
        var, ns, vname, nsname = names(a)
        module = fld(a.pre.st, ns, "_module")
        link = NIM(vname, module)
        same_ns = ns == CUR_NS
        # a function parameter compiled to the same Python name would capture the global: then the Var must be used
        direct_here = z3.And(exact(a.eng, n, ast.Name), fld(post, n, "id") == link, ctx_cls(a, n), z3.Not(PARAM_BOUND(symtab(a), link)))
        alias = NIM(V.mk_str(V.Val.s(NS_PYSYM(nsname))), fld(a.pre.st, CUR_NS, "_module"))
        # (the same for a link through another namespace's module: a parameter named like that module would capture it)
        direct_other = z3.And(z3.Not(V.is_none(alias)), exact(a.eng, n, ast.Attribute), z3.Not(PARAM_BOUND(symtab(a), alias)))
        direct = z3.And(z3.Not(V.is_none(link)), z3.If(same_ns, direct_here, direct_other))
        return z3.And(exact(a.eng, r, GPA),
                      z3.If(V.Val.b(fld(a.pre.st, a.node, "return_var")), is_find_call(a, post, n, vname, nsname),
                            z3.If(indirect(a), through_var(a, n), z3.Or(direct, through_var(a, n)))))

    c.ensures("a Var marked dynamic or redef, and every Var when indirection is switched on or overridden, is read through Var.find(..).value with the Var's own name and "
              "namespace; otherwise the reference is that form or a direct link to the module attribute resolved for the Var's name - and never a direct link to a "
              "Python name that a function parameter in scope is bound to", var_sym_post)
    c.replay(lambda m, ctx, ob: GEN_REPLAY)
    c.replay_without_model = True
    add_def_target(pack, gsetup, dict(fld=fld, lst=lst, exact=exact, NEWSYM=NEWSYM))


def add_def_target(pack, gsetup, helpers):
    """``_def_to_py_ast``: the generated code interns the Var in the namespace the ``def`` was *compiled* in - the namespace of
    the Var the analyzer created (``node.var``) - so that evaluating the ``def`` gives the value to the Var every reference
    compiled against that name denotes.  Verified on the declaration path ``(def v)``; the namespace argument is computed
    once, before the paths split, so the same expression is used on the paths with an init value (stated, not re-proved)."""
    import ast as _ast

    from basilisp.lang import runtime as rt, symbol as sym
    from basilisp.lang.compiler import generator as gen, nodes
    from basilisp.lang.map import PersistentMap

    fld, lst, exact, NEWSYM = helpers["fld"], helpers["lst"], helpers["exact"], helpers["NEWSYM"]
    GPA = gen.GeneratedPyAST

    def dsetup(eng, st):
        gsetup(eng, st)
        for c_ in (nodes.Def, nodes.NodeEnv, _ast.Global, nodes.Const):
            eng.class_id(c_)
        eng.field_types[("Def", "var")] = lambda v: (z3.And(V.is_ref(v), V.cls_of(V.Val.a(v)) == eng.class_id(rt.Var)), rt.Var)
        eng.field_types[("Def", "name")] = lambda v: (z3.And(V.is_ref(v), V.cls_of(V.Val.a(v)) == eng.class_id(sym.Symbol)), sym.Symbol)
        eng.field_types[("Def", "env")] = lambda v: (z3.And(V.is_ref(v), V.cls_of(V.Val.a(v)) == eng.class_id(nodes.NodeEnv)), nodes.NodeEnv)
        eng.field_types[("Def", "meta")] = lambda v: (z3.And(V.is_ref(v), V.cls_of(V.Val.a(v)) == eng.class_id(nodes.Const)), nodes.Const)
        eng.field_types[("Const", "form")] = lambda v: (z3.And(V.is_ref(v), V.cls_of(V.Val.a(v)) == eng.class_id(PersistentMap)), PersistentMap)
        from basilisp.lang import util as lutil

        eng.models[id(gen.munge)] = Model("munge (a function of the name)", lambda e, s, a, k: iter([(s, SV(V.mk_str(z3.String(V.fresh_name("munged")))))]))
        eng.method_models[(PersistentMap, "val_at")] = Model("meta.val_at(:dynamic, False) (either)", lambda e, s, a, k: iter([(s, SV(V.mk_bool(z3.Const(V.fresh_name("is_dynamic"), z3.BoolSort()))))]))

        def gen_py_ast(e, s, a, k):
            r = e.alloc(s, GPA)
            n = V.fresh_val("meta_ast_node")
            s.assume(e.external_ref_fact(s, n))
            e.store_field(s, r.t, "node", n, None)
            deps = e.new_list(s, [])
            e.store_field(s, r.t, "dependencies", e.lift(deps, s), None)
            yield s, r

        eng.models[id(gen.gen_py_ast)] = Model("gen_py_ast (some generated node; here only for the metadata map)", gen_py_ast)

    c = pack.contract("basilisp.lang.compiler.generator:_def_to_py_ast")
    c.label = "a declaration (def v)"
    c.param("ctx", OBJ(gen.GeneratorContext)).param("node", OBJ(nodes.Def))
    c.setup(dsetup)
    from pyvc import ops as _ops

    c.requires("the node is a def without an init value (node.op == NodeOp.DEF, node.init is None)",
               lambda a: z3.And(_ops.eq_term(None, fld(a.pre.st, a.node, "op"), a.eng.lift(nodes.NodeOp.DEF, a.pre.st)), V.is_none(fld(a.pre.st, a.node, "init"))))
    c.raises()

    def def_post(a):
        post, pre = a.post.st, a.pre.st
        n = fld(post, a.result, "node")
        args = lst(post, fld(post, n, "args"))
        ns_arg = args[0]
        var = fld(pre, a.node, "var")
        ns_name = fld(pre, fld(pre, fld(pre, var, "_ns"), "_name"), "_name")
        iargs = lst(post, fld(post, ns_arg, "args"))
        return z3.And(exact(a.eng, a.result, GPA), exact(a.eng, n, _ast.Call), z3.Length(args) >= 2,
                      exact(a.eng, ns_arg, _ast.Call), fld(post, ns_arg, "func") == a.eng.lift(NEWSYM, post), z3.Length(iargs) == 1,
                      exact(a.eng, iargs[0], _ast.Constant), fld(post, iargs[0], "value") == ns_name)

    c.ensures("the Var is interned in the namespace the def was compiled in - sym.symbol(<name of node.var's namespace>), a constant of the generated code - "
              "not in whatever *ns* is bound to when the code runs", def_post)
    c.replay(lambda m, ctx, ob: DEF_REPLAY)
    c.replay_without_model = True


DEF_REPLAY = r'''
import subprocess, sys, tempfile, os
d = tempfile.mkdtemp()
os.makedirs(os.path.join(d, "c10s"))
open(os.path.join(d, "c10s", "__init__.py"), "w").close()
open(os.path.join(d, "c10s", "a.lpy"), "w").write("(ns c10s.a)\n(def y 0)\n(defn set-y [] (def y 1))\n(defn declare-z [] (def z))\n(defn get-y [] y)\n")
src = """(ns c10s.b (:require c10s.a))
(c10s.a/set-y)
(c10s.a/declare-z)
(println "RESULT" c10s.a/y (c10s.a/get-y) @(var c10s.a/y) (resolve 'c10s.b/y) (resolve 'c10s.b/z) (some? (resolve 'c10s.a/z)))
"""
with tempfile.NamedTemporaryFile("w", suffix=".lpy", delete=False) as fh:
    fh.write(src)
outs = []
try:
    for extra in ([], ["--use-var-indirection", "true"]):
        env = dict(os.environ, PYTHONPATH=d + os.pathsep + os.environ.get("PYTHONPATH", ""))
        out = subprocess.run([sys.executable, "-m", "basilisp.cli", "run"] + extra + [fh.name], capture_output=True, text=True, timeout=300, env=env)
        line = [l for l in out.stdout.splitlines() if l.startswith("RESULT")]
        outs.append(line[0] if line else "no output: " + out.stderr[-300:])
finally:
    os.unlink(fh.name)
want = "RESULT 1 1 1 nil nil true"
print("a def inside a function of namespace a, run while b is current (direct linking, var indirection):")
for o in outs:
    print("  got     ", o)
print("  expected", want)
print("REPRODUCED" if any(o != want for o in outs) else "not reproduced")
'''


# ----------------------------------------------------------------------------- is spec_munge injective?
def munge_collisions():
    """Decide unique decodability of the real translation table (two different names must not translate to the same
    identifier) and the suffix rule, on the live module.  Returns a list of (kind, name1, name2) witnesses, one per kind.

    The translation is a character-wise homomorphism T (identity outside the table), so it is injective on all strings
    iff the code {T(c)} is uniquely decodable.  Every character not in the table is its own code word, hence:
      kind 1  two characters share a code word  (T(c1) == T(c2));
      kind 2  a multi-character code word T(c) is itself a product of code words of other characters
              (always the case when all its characters are ordinary ones): T(c) == T(T(c) read as a name);
    and after translation
      kind 3  the keyword/builtin suffix: munge(w) == w + "_" == munge(w + "_") for a keyword/builtin w."""
    import builtins
    import keyword

    from basilisp.lang import util

    table = dict(util._MUNGE_REPLACEMENTS)
    T = lambda c: table.get(c, c)  # noqa: E731
    out = []
    by_code = {}
    for c in list(table) + sorted({ch for v in table.values() for ch in v}):
        by_code.setdefault(T(c), []).append(c)
    for code, cs in sorted(by_code.items()):
        if len(set(cs)) > 1:
            a, b = sorted(set(cs))[:2]
            out.append(("two characters share a code word", "a" + a + "b", "a" + b + "b"))
            break
    for c, code in sorted(table.items()):
        if len(code) > 1 and "".join(T(ch) for ch in code) == code and code != c:
            out.append(("a replacement word spelled out is itself a name", "x" + c, "x" + code))
            break
    for w in sorted(set(keyword.kwlist) | {k for k in builtins.__dict__ if isinstance(k, str) and k.isidentifier()}):
        if util.munge(w) == w + "_" and util.munge(w + "_") == w + "_":
            out.append(("the keyword/builtin suffix collides with the suffixed name itself", w, w + "_"))
            break
    return out


KNOWN_KINDS = {"a replacement word spelled out is itself a name", "the keyword/builtin suffix collides with the suffixed name itself", "two characters share a code word"}


def munge_injectivity(active_known):
    """extra check (finite decision procedure on the live table, not SMT): one obligation per way of colliding"""
    import os

    from basilisp.lang import util
    from pyvc.run import REPLAY_DIR, run_snippet

    def check(tier, seed):
        wit = {k: (a, b) for k, a, b in munge_collisions() if a != b and util.munge(a) == util.munge(b)}
        known = "C10-munge-not-injective" in active_known
        obs = []
        for kind in sorted(KNOWN_KINDS | set(wit)):
            hit = wit.get(kind)
            name = f"two different names never get the same Python identifier ({kind})"
            if hit is None or (known and kind in KNOWN_KINDS):
                note = "" if hit is None else f" [carved out: known finding C10-munge-not-injective, e.g. {hit[0]!r} ~ {hit[1]!r}]"
                obs.append({"name": name + note, "kind": "munge-injective", "verdict": "proved", "backend": "enumeration", "time_s": 0.0, "line": 0})
            else:
                p = os.path.join(REPLAY_DIR, "C10", "munge_collision.py")
                okr, outp = run_snippet("# replay for property C10\n# failed obligation: " + name + "\n" + MUNGE_REPLAY, p, timeout=300)
                obs.append({"name": name, "kind": "munge-injective", "verdict": "refuted", "backend": "enumeration", "time_s": 0.0, "line": 0,
                            "replay": p, "reproduced": okr, "replay_output": outp[-1500:], "model": {"name1": hit[0], "name2": hit[1], "identifier": util.munge(hit[0])}})
        return [{"key": "unique-decodability:basilisp.lang.util:munge", "file": "src/basilisp/lang/util.py", "lines": [16, 56], "error": None, "obligations": obs, "extra": True, "time_s": 0.0}]

    return check


MUNGE_REPLAY = r'''
import subprocess, sys, tempfile, os
from basilisp.lang import util
pairs = [("a-b", "a_b"), ("x?", "x__Q__"), ("print", "print_")]
bad = [(a, b, util.munge(a)) for a, b in pairs if util.munge(a) == util.munge(b)]
for a, b, m in bad:
    print("munge(%r) == munge(%r) == %r" % (a, b, m))
src = "(def a-b 1)\n(def a_b 2)\n(println (if (= a-b 1) \"distinct\" \"SAME-BINDING\") a-b a_b)\n"
with tempfile.NamedTemporaryFile("w", suffix=".lpy", delete=False) as f:
    f.write(src)
try:
    out = subprocess.run([sys.executable, "-m", "basilisp.cli", "run", f.name], capture_output=True, text=True, timeout=300).stdout
finally:
    os.unlink(f.name)
print("(def a-b 1) (def a_b 2) a-b a_b ->", out.strip())
print("REPRODUCED" if bad and "SAME-BINDING" in out else "not reproduced")
'''
