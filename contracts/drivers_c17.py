"""Driver for the C17 pack: ``runtime._fn_to_comparator`` *returns* the three-way comparator that sort / sort-by use;
the driver makes it and applies it (nothing of basilisp is re-implemented here)."""
from basilisp.lang import runtime as rt


def three_way(f, x, y):
    """the comparator sort / sort-by derive from the user's function f, applied to (x, y)"""
    return rt._fn_to_comparator(f)(x, y)
