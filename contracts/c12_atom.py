"""C12 - atom updates are atomic under every schedule and terminate when nobody interferes.

Monitor proof (pyvc/monitor.py): the lock ``_lock`` owns ``_state`` (and ``_validator``,
``_watches``); ghost history ``hist`` = the sequence of values ever installed; lock
invariant ``_state is last(hist)``; rely = other threads only append to ``hist``.
Every read of an owned field outside the lock yields an arbitrary value, acquiring
the lock havocs the owned fields under the rely - this over-approximates every
interleaving at attribute-access granularity.

Linearizability is the postcondition "this call appended exactly one entry v to hist,
at one instant, v is what the call computed from an o with not(prev != o), prev being
last(hist) at that instant" (up to ``!=`` on the compared value, which is what the
code compares with).
"""
import ast
import os

import z3

from pyvc import vals as V
from pyvc import lib
from pyvc.contract import Pack, T, OBJ, ANY
from pyvc.engine import SV, Model, Raise, Exc
from pyvc.monitor import Monitor

MON = Monitor("_lock", owned=["_state", "_validator", "_watches"], hist_field="_state")


def _classes():
    from basilisp.lang.atom import Atom
    from basilisp.lang.map import PersistentMap

    return Atom, PersistentMap


def NE(a, b):
    """The comparison the code performs: Python `a != b` (interpreted on scalars, opaque otherwise)."""
    from pyvc import ops

    return ops.ne_term(None, a, b)


def SAME(prev, o):
    """`prev` counts as the expected value `o`: identical, or not `!=` (compare-and-set semantics)."""
    return z3.Or(prev == o, z3.Not(NE(prev, o)))


def g(view, name, default=None):
    v = view.ghost(name)
    return default if v is None else v


def n_mine(a):
    return g(a.post, "n_mine", z3.IntVal(0))


def _reads(a, field):
    return [v for (f, v) in a.post.st.ghost.get("racy_reads", []) if f == field]


def _common(eng, st, quiescent=False):
    Atom, PersistentMap = _classes()
    lib.install(eng)
    from basilisp.lang import keyword as kw
    from basilisp.lang import map as lmap

    # opaque constructors used only to build the ExceptionInfo payload
    eng.models[id(kw.keyword)] = Model("kw.keyword", lambda e, s, a, k: iter([(s, SV(V.fresh_val("kw")))]))
    eng.models[id(lmap.map)] = Model("lmap.map", lambda e, s, a, k: iter([(s, SV(V.fresh_val("payload")))]))
    imap = eng.libcls["IMap"]
    pmid, imid = eng.class_id(PersistentMap), eng.class_id(imap)
    eng.field_types[("Atom", "_watches")] = lambda v: (z3.And(V.is_ref(v), V.cls_of(V.Val.a(v)) == pmid), PersistentMap)
    eng.field_types[("PersistentMap", "_inner")] = lambda v: (z3.And(V.is_ref(v), V.cls_of(V.Val.a(v)) == imid), imap)

    def pm_items(e, s, args, k):
        # collections.abc.Mapping.items(PersistentMap) iterates keys of the wrapped map and looks each up (trusted)
        inner = e.load_field(s, args[0].t, "_inner", PersistentMap)
        yield from e.method_models[(imap, "items")].fn(e, s, [inner], {})

    eng.method_models[(PersistentMap, "items")] = Model("PersistentMap.items", pm_items)
    eng.opaque_havoc = "none"  # callbacks run outside the lock here; interference is modelled at every racy read / acquire
    if quiescent:
        st.ghost["quiescent"] = True
        MONQ = Monitor("_lock", owned=[], hist_field=None)
        MONQ.install(eng, st)
    else:
        MON.install(eng, st)
        for f in MON.owned:
            eng.shared_fields[f]["on_read"] = lambda e, s, o, v, f=f: s.ghost.__setitem__("racy_reads", s.ghost.get("racy_reads", []) + [(f, v)])


def setup(eng, st):
    _common(eng, st, False)


def setup_quiescent(eng, st):
    _common(eng, st, True)


def accepted(a, value):
    """The installed value passed the validator that was read when it was validated."""
    st = a.post.st
    alts = []
    for r in _reads(a, "_validator"):
        ok_calls = [
            z3.And(fn == r, len(args) == 1 and args[0] == value, a.eng.truthy_term(SV(res), st))
            for (fn, args, kw, res) in a.calls
            if not isinstance(res, Exc) and len(args) == 1
        ]
        alts.append(z3.Or(V.is_none(r), *ok_calls))
    return z3.And(*alts) if alts else z3.BoolVal(False)


LOOP_GHOST = ("hist", "n_mine", "mine_val", "mine_prev", "mine_at")


def build(active_known=frozenset()):
    Atom, PersistentMap = _classes()
    pack = Pack("C12", "Atom updates are atomic under every thread schedule and always terminate")
    pack.trust("threading.RLock gives mutual exclusion and is re-entrant; single attribute loads/stores are atomic; sequentially consistent memory (CPython with the GIL)")
    pack.trust("collections.abc.Mapping.items over a PersistentMap enumerates exactly the entries of the wrapped immutables.Map")
    pack.assume("user callbacks (update function, validator, watches) are arbitrary: any result, any exception; they run outside the atom's lock in the verified methods")
    pack.assume("linearizability is stated up to the comparison the code uses (value != expected), not identity")
    mod = "basilisp.lang.atom"

    # _notify_watches: modular contract used at the call sites in Atom; its precondition is the
    # property's "every notification carries a real transition" -------------------------------------
    nw = pack.contract("basilisp.lang.reference:RefBase._notify_watches", modular=True)
    nw.param("self", OBJ(Atom))
    nw.requires(
        "notification happens after exactly one install by this call, with the installed value and a value equal to the one replaced",
        lambda a: z3.BoolVal(True) if a.pre.st.ghost.get("quiescent") else z3.And(
            g(a.pre, "n_mine", z3.IntVal(0)) == 1,
            g(a.pre, "mine_val", V.VNone) == a.new,
            SAME(g(a.pre, "mine_prev", V.VNone), a.old),
        ),
    )
    nw.may_raise = [(Exception, None)]
    nw.spec_only = True  # call-site contract; the body is verified by the "#body" contract below
    nw.setup(setup)

    def watch_hook(eng, st, f, args, kwargs, line):
        # inside _notify_watches every opaque call must be wf(k, self, old, new) for an entry (k, wf) of the map read
        fr = max(st.frames)
        vars_ = st.frames[fr].vars
        exp = [vars_.get("k"), vars_.get("self"), vars_.get("old"), vars_.get("new")]
        ok = len(args) == 4 and all(isinstance(x, SV) and isinstance(y, SV) for x, y in zip(args, exp))
        goal = z3.And(*[x.t == y.t for x, y in zip(args, exp)]) if ok else z3.BoolVal(False)
        wf = vars_.get("wf")
        goal = z3.And(goal, f.t == wf.t) if isinstance(wf, SV) else z3.BoolVal(False)
        eng.oblige(st, "watch function of entry k is called with (k, ref, old, new)", goal, "callback-args", line)
        return None

    def nw_setup(eng, st):
        setup(eng, st)
        eng.opaque_hook = watch_hook

    # verification of the body of _notify_watches itself (not modular there: cur_func_key excludes it)
    nwv = pack.contract("basilisp.lang.reference:RefBase._notify_watches")
    nwv.label = "body"
    nwv.param("self", OBJ(Atom))
    nwv.setup(nw_setup)
    nwv.loop(0, invariant=lambda ctx: z3.BoolVal(True), frame=[], lists=False)
    nwv.ensures("returns None after notifying", lambda a: V.is_none(a.result))

    # compare_and_set ------------------------------------------------------------------------------
    c = pack.contract(f"{mod}:Atom.compare_and_set")
    c.param("self", OBJ(Atom))
    c.setup(setup)
    c.ensures("returns a bool", lambda a: V.is_bool(a.result))
    c.ensures(
        "True: exactly one install, of `new`, at an instant where the current value was not != `old`",
        lambda a: z3.Implies(
            V.Val.b(a.result),
            z3.And(n_mine(a) == 1, g(a.post, "mine_val", V.VNone) == a.new, SAME(g(a.post, "mine_prev", V.VNone), a.old)),
        ),
    )
    c.ensures("False: nothing installed by this call", lambda a: z3.Implies(z3.Not(V.Val.b(a.result)), n_mine(a) == 0))
    c.ensures("an installed value was accepted by the validator", lambda a: z3.Implies(n_mine(a) == 1, accepted(a, a.new)))
    c.ensures_on_raise(
        "validator rejection (ExceptionInfo) installs nothing; any other exception comes from a watch after the single install",
        lambda a: z3.If(z3.BoolVal(a.exc.pycls is not None and a.exc.pycls.__name__ == "ExceptionInfo"), n_mine(a) == 0, n_mine(a) <= 1),
    )

    # deref: linearizable read ---------------------------------------------------------------------
    c = pack.contract(f"{mod}:Atom.deref")
    c.param("self", OBJ(Atom))
    c.setup(setup)
    c.raises()
    c.ensures(
        "returns the value that was current (last of the history) at the instant the lock was held",
        lambda a: z3.And(n_mine(a) == 0, a.result == g(a.post, "hist")[z3.Length(g(a.post, "hist")) - 1]),
    )

    # reset ----------------------------------------------------------------------------------------
    c = pack.contract(f"{mod}:Atom.reset")
    c.param("self", OBJ(Atom))
    c.setup(setup)
    c.loop(0, invariant=lambda ctx: ctx.ghost("n_mine") == 0, frame=["_state", "_validator", "_watches"], lists=False, ghost=LOOP_GHOST)
    c.ensures("installs v exactly once and returns it", lambda a: z3.And(n_mine(a) == 1, g(a.post, "mine_val", V.VNone) == a.v, a.result == a.v))
    c.ensures("the installed value was accepted by the validator", lambda a: accepted(a, a.v))
    c.ensures_on_raise(
        "validator rejection installs nothing",
        lambda a: z3.If(z3.BoolVal(a.exc.pycls is not None and a.exc.pycls.__name__ == "ExceptionInfo"), n_mine(a) == 0, n_mine(a) <= 1),
    )

    # swap -----------------------------------------------------------------------------------------
    class _Star(T):
        n = 1

    c = pack.contract(f"{mod}:Atom.swap")
    c.param("self", OBJ(Atom))
    c.param("args", _Star(lambda v: z3.BoolVal(True), None, "*args(1)"))
    c.setup(setup)
    c.loop(0, invariant=lambda ctx: ctx.ghost("n_mine") == 0, frame=["_state", "_validator", "_watches"], lists=False, ghost=LOOP_GHOST)

    def swap_post(a):
        val = g(a.post, "mine_val", V.VNone)
        prev = g(a.post, "mine_prev", V.VNone)
        computed = [
            z3.And(fn == a.f, args[0] == args[0], res == val, SAME(prev, args[0]), args[1] == a.args0)
            for (fn, args, kw, res) in a.calls
            if not isinstance(res, Exc) and len(args) == 2
        ]
        return z3.And(n_mine(a) == 1, a.result == val, z3.Or(*computed) if computed else z3.BoolVal(False))

    c.ensures("exactly one install: f(o, *args) for an o that the replaced value was not != to; that value is returned", swap_post)
    c.ensures("the installed value was accepted by the validator", lambda a: accepted(a, g(a.post, "mine_val", V.VNone)))
    c.ensures_on_raise(
        "an exception from f or the validator installs nothing",
        lambda a: z3.If(z3.BoolVal(a.exc.pycls is not None and a.exc.pycls.__name__ == "ExceptionInfo"), n_mine(a) == 0, n_mine(a) <= 1),
    )

    # termination when no other thread interferes ---------------------------------------------------
    def rp_spin(method):
        def rp(m, ctx, ob):
            return (
                "import threading\nfrom basilisp.lang.atom import Atom\n"
                "nan = float('nan')\na = Atom(nan)\n"
                + ("t = threading.Thread(target=lambda: a.reset(1), daemon=True)\n" if method == "reset" else "t = threading.Thread(target=lambda: a.swap(lambda o: 1), daemon=True)\n")
                + "t.start(); t.join(3)\n"
                "print('alone in the process, value not equal to itself (NaN): still running after 3s =', t.is_alive())\n"
                "print('REPRODUCED' if t.is_alive() else 'not reproduced')\n"
                "import os; os._exit(0)\n"
            )

        return rp

    for meth in ("reset", "swap"):
        c = pack.contract(f"{mod}:Atom.{meth}")
        c.label = "no-interference"
        c.param("self", OBJ(Atom))
        if meth == "swap":
            c.param("args", _Star(lambda v: z3.BoolVal(True), None, "*args(1)"))
        c.setup(setup_quiescent)
        c.loop(
            0,
            invariant=lambda ctx: z3.BoolVal(True),
            frame=["_state"],
            lists=False,
            single_iteration="terminates in its first iteration when no other thread interferes, whatever value the atom holds",
        )
        c.replay(rp_spin(meth))

    pack.extra.append(lock_discipline_scan)
    return pack


def lock_discipline_scan(tier, seed):
    """Every store to Atom._state in /repo/src is inside `with self._lock` or in __init__ (syntactic, exhaustive)."""
    from pyvc import source as S

    path = os.path.join(S.REPO_SRC, "basilisp", "lang", "atom.py")
    tree = S.parse_file(path)
    obs = []
    for cls in [n for n in ast.walk(tree) if isinstance(n, ast.ClassDef) and n.name == "Atom"]:
        for fn in [n for n in cls.body if isinstance(n, ast.FunctionDef)]:
            for node in ast.walk(fn):
                if isinstance(node, ast.Attribute) and node.attr == "_state" and isinstance(node.ctx, ast.Store):
                    ok = fn.name == "__init__"
                    p = node
                    while hasattr(p, "_parent") and not ok:
                        p = p._parent
                        if isinstance(p, ast.With) and any(isinstance(i.context_expr, ast.Attribute) and i.context_expr.attr == "_lock" for i in p.items):
                            ok = True
                    obs.append({"name": f"store to _state at atom.py:{node.lineno} ({fn.name}) is under self._lock or in __init__", "kind": "lock-scan", "verdict": "proved" if ok else "refuted", "backend": "enumeration", "time_s": 0.0, "line": node.lineno})
    # no other module writes Atom._state from outside
    return [{"key": "lock-discipline-scan:basilisp.lang.atom", "file": "src/basilisp/lang/atom.py", "lines": [0, 0], "error": None, "obligations": obs, "extra": True, "time_s": 0.0}]
